#!/usr/bin/env python3
# -*- coding: utf-8 -*-
"""
Equivalence / conformance program for property C10:

    "nrpickler round-trips any graph to an isomorphic, usable, detached copy"

Only the public API of edgegraph is used.  The program

* builds graphs (scripted corner cases and seeded random histories),
* serialises them with nrpickler.dumps / nrpickler.dump for every protocol,
* loads the bytes again with pickle and with dill, in this process and in a
  fresh interpreter, with neighbor caching on and off,
* and checks the result against an oracle written from the statement of the
  property: a parallel walk of original and copy that demands the same
  qualified class names, uids, attributes, ordered links per vertex, ordered
  ends per link, ordered members per universe, sharing preserved (a bijection
  between original and copied objects), no object of the copy being an object
  of the original, and the same answers to every structural query/traversal.

Exit status 0 means everything is as demanded.

Run from the worktree root:  PYTHONPATH=<worktree> python equiv.py
"""

import hashlib
import io
import os
import pickle
import random
import subprocess
import sys
import tempfile
import types
import warnings

import dill

from edgegraph.structure import (
    base,
    vertex,
    link,
    universe,
    twoendedlink,
    directededge,
    undirectededge,
)
from edgegraph.traversal import helpers, breadthfirst, depthfirst
from edgegraph.builder import explicit, randgraph
from edgegraph.output import nrpickler

Vertex = vertex.Vertex
Universe = universe.Universe
DirectedEdge = directededge.DirectedEdge
UnDirectedEdge = undirectededge.UnDirectedEdge

PROTOCOLS = list(range(pickle.HIGHEST_PROTOCOL + 1))

# dill warns about classes of __main__ it has to pickle by value; that is
# exactly what is wanted here
warnings.simplefilter("ignore", dill.PicklingWarning)
CHECKS = [0]


def check(cond, msg):
    CHECKS[0] += 1
    if not cond:
        raise AssertionError(msg)


###############################################################################
# the oracle: original and copy are isomorphic, the copy is detached
###############################################################################

ATOMS = (int, float, complex, str, bytes, bool, type(None))


def qualname(cls):
    return f"{cls.__module__}.{cls.__qualname__}"


def isomorphic(orig, copy):
    """
    Walk ``orig`` and ``copy`` in parallel (without recursion) and demand that
    they have the same shape.  Returns the number of distinct objects seen.
    """
    fwd = {}  # id(original object) -> its copy
    back = {}  # id(copied object) -> its original
    keep = []  # keeps temporaries alive so that ids stay unique
    todo = [(orig, copy, "root")]
    while todo:
        o, c, path = todo.pop()

        if isinstance(o, ATOMS) and not isinstance(o, base.BaseObject):
            check(type(o) is type(c), f"{path}: type {type(o)} != {type(c)}")
            check(o == c, f"{path}: value {o!r} != {c!r}")
            continue

        if isinstance(o, type):
            check(isinstance(c, type), f"{path}: class became {c!r}")
            check(
                qualname(o) == qualname(c),
                f"{path}: class {qualname(o)} became {qualname(c)}",
            )
            continue

        if isinstance(o, (types.FunctionType, types.BuiltinFunctionType)):
            check(callable(c), f"{path}: function became {c!r}")
            check(
                o.__qualname__ == c.__qualname__,
                f"{path}: function {o.__qualname__} became {c.__qualname__}",
            )
            if isinstance(o, types.FunctionType):
                check(
                    o.__code__.co_code == c.__code__.co_code,
                    f"{path}: code of {o.__qualname__} changed",
                )
            continue

        # everything else has an identity that must be preserved one-to-one
        if id(o) in fwd:
            check(
                fwd[id(o)] is c,
                f"{path}: shared object is no longer shared (or mixed up)",
            )
            continue
        check(
            id(c) not in back,
            f"{path}: two distinct objects were merged into one",
        )
        fwd[id(o)] = c
        back[id(c)] = o
        keep.append((o, c))

        check(
            qualname(type(o)) == qualname(type(c)),
            f"{path}: {qualname(type(o))} became {qualname(type(c))}",
        )

        if isinstance(o, base.BaseObject):
            check(o is not c, f"{path}: copy is not detached")
            check(o.uid == c.uid, f"{path}: uid {o.uid} became {c.uid}")
            ovars, cvars = vars(o), vars(c)
            check(
                list(ovars) == list(cvars),
                f"{path}: attributes {list(ovars)} became {list(cvars)}",
            )
            for key in ovars:
                if key.endswith("qa_nb_cache"):
                    # the neighbor cache is transient: the queries made here
                    # on the original after dumps() keep changing it.  what it
                    # answers is checked through the queries instead.
                    continue
                todo.append((ovars[key], cvars[key], f"{path}.{key}"))
            # ... and once more through the public, ordered, views
            views = [("universes", o.universes, c.universes)]
            if isinstance(o, Vertex):
                views.append(("links", o.links, c.links))
            if isinstance(o, link.Link):
                views.append(("vertices", o.vertices, c.vertices))
            if (
                isinstance(o, twoendedlink.TwoEndedLink)
                and len(o.vertices) == 2
            ):
                views.append(("v1", [o.v1], [c.v1]))
                views.append(("v2", [o.v2], [c.v2]))
            if isinstance(o, Universe):
                views.append(("members", o.vertices, c.vertices))
                views.append(("laws", [o.laws], [c.laws]))
            if isinstance(o, universe.UniverseLaws):
                for prop in ("mixed_links", "cycles", "multipath", "multiverse"):
                    check(
                        getattr(o, prop) == getattr(c, prop),
                        f"{path}: law {prop} changed",
                    )
                views.append(("applies_to", [o.applies_to], [c.applies_to]))
                views.append(
                    (
                        "edge_whitelist",
                        [o.edge_whitelist],
                        [c.edge_whitelist],
                    )
                )
            for name, ov, cv in views:
                check(
                    len(ov) == len(cv),
                    f"{path}.{name}: length {len(ov)} became {len(cv)}",
                )
                for i, (oo, cc) in enumerate(zip(ov, cv)):
                    todo.append((oo, cc, f"{path}.{name}[{i}]"))
            continue

        if isinstance(o, (list, tuple)):
            check(len(o) == len(c), f"{path}: length changed")
            if isinstance(o, list):
                check(o is not c, f"{path}: list is not detached")
            for i, (oo, cc) in enumerate(zip(o, c)):
                todo.append((oo, cc, f"{path}[{i}]"))
            continue

        if isinstance(o, dict):
            check(o is not c, f"{path}: dict is not detached")
            check(len(o) == len(c), f"{path}: dict size changed")
            for i, ((ok, ov), (ck, cv)) in enumerate(zip(o.items(), c.items())):
                todo.append((ok, ck, f"{path}.key#{i}"))
                todo.append((ov, cv, f"{path}[{ok!r:.20}]"))
            continue

        if isinstance(o, (set, frozenset)):
            # sets of atoms, or sets of graph objects (matched up by uid)
            check(len(o) == len(c), f"{path}: set size changed")
            if all(isinstance(x, base.BaseObject) for x in o):
                check(
                    all(isinstance(x, base.BaseObject) for x in c),
                    f"{path}: set members changed kind",
                )
                by_uid = {x.uid: x for x in c}
                check(len(by_uid) == len(c), f"{path}: uids collide in set")
                for x in o:
                    check(x.uid in by_uid, f"{path}: member {x.uid} lost")
                    todo.append((x, by_uid[x.uid], f"{path}{{{x.uid}}}"))
            else:
                check(o == c, f"{path}: set changed")
            continue

        if isinstance(o, (bytearray,)):
            check(o == c and o is not c, f"{path}: bytearray changed")
            continue

        if isinstance(o, types.CellType):
            todo.append((o.cell_contents, c.cell_contents, f"{path}.cell"))
            continue

        if isinstance(o, (types.MethodType,)):
            todo.append((o.__self__, c.__self__, f"{path}.__self__"))
            todo.append((o.__func__, c.__func__, f"{path}.__func__"))
            continue

        if hasattr(o, "__dict__"):
            check(o is not c, f"{path}: object is not detached")
            check(
                list(vars(o)) == list(vars(c)),
                f"{path}: attributes of plain object changed",
            )
            for key in vars(o):
                todo.append((vars(o)[key], vars(c)[key], f"{path}.{key}"))
            continue

        raise AssertionError(f"{path}: oracle does not know {type(o)}")
    return len(fwd)


###############################################################################
# structural queries; written once, executed here and in fresh interpreters
###############################################################################

SIGNATURE_SRC = r'''
def _uid(x):
    return None if x is None else x.uid

def _outcome(fn):
    try:
        res = fn()
    except Exception as exc:
        return ("raised", type(exc).__name__)
    if res is None:
        return None
    if isinstance(res, (list, tuple)):
        return [_uid(x) for x in res]
    if isinstance(res, (set, frozenset)):
        return sorted(_uid(x) for x in res)
    return _uid(res)

def signature(unis, verts, edges):
    """
    Everything that can be asked about the structure, as plain data (uids).
    """
    from edgegraph.traversal import helpers, breadthfirst, depthfirst
    from edgegraph.structure import twoendedlink
    sig = []
    for u in unis:
        sig.append(("U", u.uid, [_uid(v) for v in u.vertices],
                    [_uid(x) for x in u.universes],
                    [_uid(l) for l in u.links],
                    _uid(u.laws), _uid(u.laws.applies_to),
                    (u.laws.mixed_links, u.laws.cycles, u.laws.multipath,
                     u.laws.multiverse)))
    for e in edges:
        row = ["E", type(e).__qualname__, e.uid, [_uid(v) for v in e.vertices],
               sorted(k for k in vars(e) if not k.startswith("_"))]
        if isinstance(e, twoendedlink.TwoEndedLink):
            row.append(_outcome(lambda: e.v1))
            row.append(_outcome(lambda: e.v2))
            for v in e.vertices:
                row.append(_outcome(lambda: e.other(v)))
        sig.append(row)
    for v in verts:
        row = ["V", type(v).__qualname__, v.uid, [_uid(l) for l in v.links],
               [_uid(u) for u in v.universes],
               sorted((k, repr(val)) for k, val in vars(v).items()
                      if not k.startswith("_")
                      and isinstance(val, (int, str, float, type(None)))),
              ]
        for ds in (helpers.DIR_SENS_FORWARD, helpers.DIR_SENS_ANY,
                   helpers.DIR_SENS_BACKWARD):
            for uh in (helpers.LNK_UNKNOWN_ERROR, helpers.LNK_UNKNOWN_NEIGHBOR,
                       helpers.LNK_UNKNOWN_NONNEIGHBOR):
                # twice: the second answer may come out of the neighbor cache
                row.append(_outcome(lambda: helpers.neighbors(v, ds, uh)))
                row.append(_outcome(lambda: helpers.neighbors(v, ds, uh)))
        sig.append(row)
    for u in unis:
        for v in u.vertices[:6]:
            sig.append(("bft", u.uid, v.uid,
                        _outcome(lambda: breadthfirst.bft(u, v))))
            sig.append(("dft", u.uid, v.uid,
                        _outcome(lambda: depthfirst.dft_iterative(u, v))))
            if len(u.vertices) < 150:
                sig.append(("dftr", u.uid, v.uid,
                            _outcome(lambda: depthfirst.dft_recursive(u, v))))
            sig.append(("bfs", u.uid, v.uid,
                        _outcome(lambda: breadthfirst.bfs(u, v, "i", 3))))
    for a in verts[:5]:
        for b in verts[:5]:
            sig.append(("fl", a.uid, b.uid,
                        _outcome(lambda: helpers.find_links(a, b))))
    return sig
'''
exec(SIGNATURE_SRC)  # pylint: disable=exec-used  (defines signature())

FRESH_SRC = (
    r'''
import sys, pickle, hashlib
mode, caching, fname = sys.argv[1], sys.argv[2] == "1", sys.argv[3]
import dill
from edgegraph.structure import vertex
vertex.Vertex.NEIGHBOR_CACHING = caching
with open(fname, "rb") as fp:
    data = fp.read()
unis, verts, edges = (pickle if mode == "pickle" else dill).loads(data)
'''
    + SIGNATURE_SRC
    + r'''
first = signature(unis, verts, edges)
second = signature(unis, verts, edges)
assert first == second, "answers change when asked twice"
# the copy is usable: build on it
v = vertex.Vertex(universes=unis[:1])
if verts:
    from edgegraph.builder import explicit
    e = explicit.link_directed(verts[0], v)
    from edgegraph.traversal import helpers
    assert helpers.neighbors(v, helpers.DIR_SENS_BACKWARD) == [verts[0]]
    e.unlink_from(verts[0])
    e.unlink_from(v)
    unis[0].remove_vertex(v)
    assert signature(unis, verts, edges) == first, "usable copy went wrong"
assert isinstance(vertex.Vertex.total_cache_stats(), str)
print(hashlib.sha256(repr(first).encode()).hexdigest())
'''
)


def sig_hash(sig):
    return hashlib.sha256(repr(sig).encode()).hexdigest()


###############################################################################
# graph construction
###############################################################################


class Colored(Vertex):
    """A module level subclass (of __main__: dill pickles it by value)."""

    def __init__(self, color, **kwargs):
        super().__init__(**kwargs)
        self.color = color

    def shout(self):
        return str(self.color).upper()


class Heavy(DirectedEdge):
    """An edge subclass using super() in several methods."""

    def __init__(self, v1=None, v2=None, *, weight=1, **kwargs):
        super().__init__(v1, v2, **kwargs)
        self.weight = weight

    def other(self, end):
        return super().other(end)


class Plain:
    """Some non-edgegraph object hanging off a vertex."""

    def __init__(self, payload):
        self.payload = payload
        self.me = self


def build_random(rnd, n):
    """
    A random history of public-API calls producing (universes, vertices,
    edges).  Neighbor caching is toggled and caches are warmed on the way.
    """
    unis = [Universe() for _ in range(rnd.randint(1, 3))]
    if rnd.random() < 0.5:
        unis[0].laws = universe.UniverseLaws(
            cycles=rnd.random() < 0.5, multipath=rnd.random() < 0.5
        )
    if len(unis) > 1 and rnd.random() < 0.3:
        # a universe is a vertex, too
        unis[0].add_vertex(unis[1])
    shared_list = [1, "two", 3.0, None, (4, 5), {"six": 6}]
    shared_plain = Plain([b"bytes", bytearray(b"ba"), frozenset({1, 2})])
    verts, edges = [], []
    for i in range(n):
        kind = rnd.random()
        us = [u for u in unis if rnd.random() < 0.6]
        if rnd.random() < 0.2:
            us = us + us  # repeated elements
        attrs = {"i": i, "name": f"v{i}"}
        if kind < 0.6:
            v = Vertex(universes=us, attributes=attrs)
        elif kind < 0.8:
            v = Vertex(universes=iter(us), attributes=attrs)  # an iterator
        else:
            v = Colored(rnd.choice(["red", "green"]), universes=us)
            v.i = i
            v.name = f"v{i}"
        r = rnd.random()
        if r < 0.15:
            v.shared = shared_list
        elif r < 0.3:
            v.plain = shared_plain
        elif r < 0.4:
            v.myself = v
        elif r < 0.5 and verts:
            v.buddy = rnd.choice(verts)
        elif r < 0.55 and edges:
            v.fav_edge = rnd.choice(edges)
        elif r < 0.6:
            v.home = rnd.choice(unis)
        elif r < 0.65:
            v.everything = [verts[:3], {"u": unis}, (v, v)]
        elif r < 0.75:
            v.tup = (v, i)
            if verts:
                rnd.choice(verts).borrowed = v.tup
        elif r < 0.8:
            v.fs = frozenset([v] + verts[:2])
            if verts:
                rnd.choice(verts).borrowed_fs = v.fs
        verts.append(v)

        # grow some edges as we go
        for _ in range(rnd.randint(0, 3)):
            a = rnd.choice(verts)
            b = rnd.choice(verts)
            r = rnd.random()
            if r < 0.3:
                e = explicit.link_directed(a, b)
            elif r < 0.6:
                e = explicit.link_undirected(a, b)
            elif r < 0.7:
                e = Heavy(a, b, weight=rnd.randint(1, 9))
            elif r < 0.8:
                e = DirectedEdge(a, a)  # self-loop
            elif r < 0.85:
                e = UnDirectedEdge(a, None)  # dangling end
            elif r < 0.9:
                e = DirectedEdge()  # both ends missing
                e.v1 = a
            elif r < 0.95:
                e = link.Link(
                    vertices=rnd.sample(verts, min(len(verts), 3)),
                    _force_creation=True,
                )
            else:
                e = explicit.link_from_to(a, Heavy, b)
            e.label = f"e{len(edges)}"
            edges.append(e)

        # other kinds of history
        r = rnd.random()
        if r < 0.1 and edges:
            e = rnd.choice(edges)
            if (
                isinstance(e, twoendedlink.TwoEndedLink)
                and len(e.vertices) == 2
            ):
                e.v2 = rnd.choice(verts)  # re-point an edge
        elif r < 0.2 and len(verts) > 1:
            a, b = rnd.sample(verts, 2)
            try:
                gone = explicit.unlink(a, b)
            except AttributeError:
                gone = None  # a plain Link is in the way: nothing happened
            if gone:
                edges[:] = [e for e in edges if e not in gone]
        elif r < 0.25:
            a = rnd.choice(verts)
            if a.universes:
                a.remove_from_universe(rnd.choice(a.universes))
        elif r < 0.3:
            rnd.choice(verts).add_to_universe(rnd.choice(unis))
        elif r < 0.4:
            # warm / disturb the neighbor caches
            Vertex.NEIGHBOR_CACHING = not Vertex.NEIGHBOR_CACHING
            for a in rnd.sample(verts, min(len(verts), 4)):
                try:
                    helpers.neighbors(a, rnd.choice([0, 1, 2]), 1)
                except Exception:  # pylint: disable=broad-except
                    pass
    return unis, verts, edges


###############################################################################
# the actual round trip checks
###############################################################################


class RecordingFile:
    """A minimal 'file': anything with a write() method is good enough."""

    def __init__(self):
        self.chunks = []

    def write(self, data):
        self.chunks.append(bytes(data))


def loaders():
    return [("pickle", pickle.loads), ("dill", dill.loads)]


def roundtrip(graph, protocols=PROTOCOLS, expect_sig=None, label=""):
    """
    Serialise ``graph`` (a (universes, vertices, edges) triple) in every way,
    load it in every way, and hold the result against the oracle.
    """
    unis, verts, edges = graph
    before = expect_sig if expect_sig is not None else signature(*graph)
    for proto in protocols:
        data = nrpickler.dumps(graph, protocol=proto)
        check(isinstance(data, bytes), f"{label}: dumps gave {type(data)}")
        check(data.endswith(pickle.STOP), f"{label}: stream does not end")
        if proto >= 2:
            check(
                data[:2] == pickle.PROTO + bytes([proto]),
                f"{label}: wrong protocol header",
            )

        # dump() writes the same stream, to anything that has write()
        bio = io.BytesIO()
        check(
            nrpickler.dump(graph, bio, protocol=proto) is None,
            f"{label}: dump returned something",
        )
        check(bio.getvalue() == data, f"{label}: dump() != dumps() p{proto}")
        rec = RecordingFile()
        nrpickler.dump(graph, rec, protocol=proto)
        check(
            b"".join(rec.chunks) == data,
            f"{label}: dump() to a write-only object differs p{proto}",
        )

        for lname, loads in loaders():
            copy = loads(data)
            where = f"{label} p{proto} {lname}"
            check(
                isinstance(copy, tuple) and len(copy) == 3,
                f"{where}: root changed",
            )
            isomorphic(graph, copy)
            for caching in (False, True):
                Vertex.NEIGHBOR_CACHING = caching
                check(
                    signature(*copy) == signature(*graph),
                    f"{where} caching={caching}: queries answer differently",
                )
            Vertex.NEIGHBOR_CACHING = False

            # the copy is usable and detached: change it, the original stays
            cu, cv, ce = copy
            newv = Vertex(universes=cu[:1], attributes={"i": -1})
            if cv:
                e = explicit.link_directed(cv[0], newv)
                check(
                    helpers.neighbors(newv, helpers.DIR_SENS_BACKWARD)
                    == [cv[0]]
                    and cv[0].links[-1] is e,
                    f"{where}: link made on the copy is not seen",
                )
                check(
                    e in cv[0].links and e not in verts[0].links,
                    f"{where}: copy shares link lists with the original",
                )
                cv[0].poked = True
                check(
                    not hasattr(verts[0], "poked"),
                    f"{where}: copy shares attributes with the original",
                )
            check(
                signature(*graph) == before,
                f"{where}: changing the copy changed the original",
            )

    # default arguments work, too
    copy = pickle.loads(nrpickler.dumps(graph))
    isomorphic(graph, copy)
    bio = io.BytesIO()
    nrpickler.dump(graph, bio)
    isomorphic(graph, pickle.loads(bio.getvalue()))
    check(signature(*graph) == before, f"{label}: pickling changed the graph")
    return before


def fresh_interpreter(graph, label, protocols=(0, 2, 4, 5)):
    """
    Load the bytes in a brand new interpreter, ask the same questions there.
    """
    Vertex.NEIGHBOR_CACHING = False
    want = sig_hash(signature(*graph))
    with tempfile.TemporaryDirectory() as tmp:
        script = os.path.join(tmp, "fresh.py")
        with open(script, "w", encoding="utf-8") as fp:
            fp.write(FRESH_SRC)
        for proto in protocols:
            fname = os.path.join(tmp, f"g{proto}.pkl")
            with open(fname, "wb") as fp:
                nrpickler.dump(graph, fp, protocol=proto)
            for mode, caching in (
                ("pickle", "0"),
                ("pickle", "1"),
                ("dill", "1"),
            ):
                res = subprocess.run(
                    [sys.executable, script, mode, caching, fname],
                    capture_output=True,
                    text=True,
                    check=False,
                )
                check(
                    res.returncode == 0,
                    f"{label} p{proto} {mode} caching={caching}: fresh "
                    f"interpreter failed:\n{res.stderr[-2000:]}",
                )
                check(
                    res.stdout.strip() == want,
                    f"{label} p{proto} {mode} caching={caching}: fresh "
                    "interpreter answers differently",
                )


###############################################################################
# scripted corner cases
###############################################################################


def scripted():
    # --- nothing at all
    roundtrip(([], [], []), label="empty")
    u = Universe()
    roundtrip(([u], [], []), label="empty-universe")

    # --- one vertex, in a universe, twice in the root
    v = Vertex(universes=[u], attributes={"i": 0})
    roundtrip(([u, u], [v, v], []), label="single")

    # --- self loops, parallel edges, duplicates, None ends
    a = Vertex(universes=[u], attributes={"i": 1})
    b = Vertex(universes=[u], attributes={"i": 2})
    es = [
        DirectedEdge(a, a),
        UnDirectedEdge(a, a),
        DirectedEdge(a, b),
        DirectedEdge(a, b),
        DirectedEdge(b, a),
        UnDirectedEdge(a, b),
        DirectedEdge(a, None),
        DirectedEdge(None, b),
        DirectedEdge(None, None),
        UnDirectedEdge(),
        link.Link(vertices=[a, b, v, a], _force_creation=True),
        link.Link(_force_creation=True),
    ]
    roundtrip(([u], [v, a, b], es), label="loops")
    fresh_interpreter(([u], [v, a, b], es), "loops")

    # --- roots other than a triple: a vertex alone drags everything along
    for proto in PROTOCOLS:
        for loads in (pickle.loads, dill.loads):
            ca = loads(nrpickler.dumps(a, protocol=proto))
            isomorphic(a, ca)
            check(
                [x.uid for x in ca.universes[0].vertices]
                == [x.uid for x in u.vertices],
                "vertex root: universe members differ",
            )
            ce = loads(nrpickler.dumps(es[2], protocol=proto))
            isomorphic(es[2], ce)
            cd = loads(nrpickler.dumps({"k": [a, (b, es)], 3: u}, protocol=proto))
            isomorphic({"k": [a, (b, es)], 3: u}, cd)
            cl = loads(nrpickler.dumps(u.laws, protocol=proto))
            isomorphic(u.laws, cl)
            check(cl.applies_to.laws is cl, "laws root: back reference lost")

    # --- several universes, universes inside universes, shared attributes
    u1, u2, u3 = Universe(), Universe(), Universe()
    u1.add_vertex(u2)
    u2.add_vertex(u3)
    u3.add_vertex(u1)
    box = {"list": [1, 2, 3]}
    p = Vertex(universes=[u1, u2, u3], attributes={"i": 0, "box": box})
    q = Vertex(universes=[u3], attributes={"i": 1, "box": box, "peer": p})
    q.box2 = box["list"]
    p.peer = q
    p.selfref = p
    p.edgeref = explicit.link_undirected(p, q)
    q.plain = Plain([p, q, u1])
    l3 = [p, q]
    l3.append(l3)
    q.cyc = l3
    # immutable containers reachable from their own elements, and shared
    # (they are met again while their own parts are still being written)
    p.tup = (p, "x", q)
    q.tup = p.tup
    p.fs = frozenset([p, q])
    q.fs = p.fs
    p.nest = ((p.tup, p.fs), (q,))
    q.nest = p.nest[0]
    u1.pair = (u1, p.tup)
    roundtrip(([u1, u2, u3], [p, q], [p.edgeref]), label="multiverse")
    for proto in PROTOCOLS:
        for start in (p, q, u1, p.tup, p.fs, [p.tup, p], (q.fs, q.tup, q)):
            isomorphic(start, pickle.loads(nrpickler.dumps(start, protocol=proto)))
        cp, cq = pickle.loads(nrpickler.dumps((p, q), protocol=proto))
        check(cp.tup is cq.tup and cp.tup[0] is cp, "shared tuple split")
        check(cp.fs is cq.fs and cp in cp.fs and cq in cp.fs, "shared frozenset")
        check(cq.nest is cp.nest[0] and cp.nest[0][0] is cp.tup, "nested tuples")
    c = pickle.loads(nrpickler.dumps(([u1, u2, u3], [p, q], [p.edgeref])))
    check(c[1][0].box is c[1][1].box, "shared dict no longer shared")
    check(c[1][1].box2 is c[1][0].box["list"], "shared list no longer shared")
    check(c[1][1].cyc[2] is c[1][1].cyc, "cyclic list broken")
    check(c[1][1].plain.me is c[1][1].plain, "plain self reference broken")

    # --- subclasses: module level (of __main__), local, with super(), and
    #     closures / recursive functions as attributes
    def recursive(n):
        return 1 if n < 2 else n * recursive(n - 1)

    offset = 5

    def closure(x):
        return x + offset

    class Local(Colored):
        def __init__(self, **kwargs):
            super().__init__("blue", **kwargs)
            self.local = True

        def shout(self):
            return "local " + super().shout()

        @classmethod
        def make(cls):
            return cls()

    uu = Universe()
    lv = Local(universes=[uu])
    cv = Colored("red", universes=[uu])
    lv.i, cv.i = 0, 1
    lv.fn = recursive
    cv.fn = closure
    cv.lam = lambda z: z * 3
    cv.builtin = len
    cv.cls = Local
    cv.method = lv.shout
    he = Heavy(lv, cv, weight=7)
    for proto in PROTOCOLS:
        for lname, loads in loaders():
            data = nrpickler.dumps(([uu], [lv, cv], [he]), protocol=proto)
            cu, (clv, ccv), (che,) = loads(data)
            where = f"subclasses p{proto} {lname}"
            isomorphic(([uu], [lv, cv], [he]), (cu, [clv, ccv], [che]))
            check(clv.shout() == "local BLUE", f"{where}: super() broken")
            check(ccv.shout() == "RED", f"{where}: method broken")
            check(clv.fn(5) == 120, f"{where}: recursive function broken")
            check(ccv.fn(1) == 6, f"{where}: closure broken")
            check(ccv.lam(2) == 6, f"{where}: lambda broken")
            check(ccv.builtin is len, f"{where}: builtin not by reference")
            check(ccv.cls is type(clv), f"{where}: class no longer shared")
            check(ccv.method() == "local BLUE", f"{where}: bound method")
            check(ccv.method.__self__ is clv, f"{where}: bound method self")
            check(type(clv).make().local is True, f"{where}: classmethod")
            check(che.other(clv) is ccv, f"{where}: edge subclass broken")
            check(che.weight == 7, f"{where}: edge attribute lost")
            check(
                isinstance(clv, type(ccv)) and isinstance(clv, Vertex),
                f"{where}: class hierarchy lost",
            )
            check(
                helpers.neighbors(clv) == [ccv],
                f"{where}: neighbors on by-value classes",
            )
    # classes and functions as roots, repeated
    for proto in PROTOCOLS:
        cl1, cl2, f1, f2 = pickle.loads(
            nrpickler.dumps([Local, Local, recursive, recursive], protocol=proto)
        )
        check(cl1 is cl2 and f1 is f2, "shared class/function not shared")
        check(cl1.__qualname__ == Local.__qualname__, "class name lost")
        check(cl1().shout() == "local BLUE", "class as root: super() broken")
        check(f1(4) == 24, "function as root broken")

    # --- atoms and containers as roots
    for proto in PROTOCOLS:
        for thing in (
            None,
            0,
            2**80,
            -1.5,
            "",
            "text",
            b"",
            b"bytes",
            (),
            [],
            {},
            (1, (2, (3,))),
            [[[]]],
            {"a": {"b": [1, {"c": ()}]}},
            set([1, 2]),
            frozenset(["x"]),
            "x" * 70000,
            b"y" * 70000,
        ):
            for loads in (pickle.loads, dill.loads):
                got = loads(nrpickler.dumps(thing, protocol=proto))
                check(
                    got == thing and type(got) is type(thing),
                    f"atom {thing!r:.30} p{proto}",
                )

    # --- big payloads inside a graph (in the middle of queued work)
    bu = Universe()
    bv = Vertex(universes=[bu], attributes={"i": 0})
    bw = Vertex(universes=[bu], attributes={"i": 1})
    bv.blob = b"\x00\xff" * 40000
    bv.text = "é" * 70000
    bw.blob = bv.blob
    be = explicit.link_directed(bv, bw)
    roundtrip(([bu], [bv, bw], [be]), label="big")

    # --- randgraph output (documented usage)
    random.seed(20240917)
    g = randgraph.randgraph(count=40)
    data = nrpickler.dumps(g)
    cg = pickle.loads(data)
    check(cg is not g, "randgraph: same object")
    isomorphic(g, cg)
    roundtrip(([g], g.vertices, []), label="randgraph", protocols=[0, 3, 5])


def failures():
    """
    Callbacks that raise: the exception comes out unchanged, nothing breaks.
    """

    class Boom:
        def __init__(self, calls):
            self.calls = calls

        def __reduce__(self):
            self.calls.append("reduce")
            raise ZeroDivisionError("boom")

    u = Universe()
    vs = [Vertex(universes=[u], attributes={"i": i}) for i in range(6)]
    es = [explicit.link_directed(vs[i], vs[i + 1]) for i in range(5)]
    before = signature([u], vs, es)
    calls = []
    vs[3].bad = Boom(calls)
    for proto in PROTOCOLS:
        del calls[:]
        try:
            nrpickler.dumps(([u], vs, es), protocol=proto)
        except ZeroDivisionError as exc:
            check(str(exc) == "boom", "exception message changed")
        else:
            check(False, "exception from __reduce__ was swallowed")
        check(calls == ["reduce"], f"__reduce__ called {len(calls)} times")
        rec = RecordingFile()
        try:
            nrpickler.dump(([u], vs, es), rec, protocol=proto)
        except ZeroDivisionError:
            pass
        else:
            check(False, "exception from __reduce__ was swallowed (dump)")
        check(
            not b"".join(rec.chunks).endswith(pickle.STOP) or proto == 0,
            "stream was terminated in spite of the failure",
        )
    del vs[3].bad
    check(signature([u], vs, es) == before, "failed pickling changed graph")
    roundtrip(([u], vs, es), label="after-failure", protocols=[1, 4])

    # a file whose write() fails at the n-th call
    class Full:
        def __init__(self, limit):
            self.limit = limit
            self.calls = 0

        def write(self, data):
            self.calls += 1
            if self.calls == self.limit:
                raise OSError("disk full")

    for proto in PROTOCOLS:
        for limit in (1, 2, 5, 17, 40):
            f = Full(limit)
            try:
                nrpickler.dump(([u], vs, es), f, protocol=proto)
            except OSError as exc:
                check(str(exc) == "disk full", "OSError message changed")
                check(f.calls == limit, "write() called after it failed")
            else:
                check(False, "OSError from write() was swallowed")
    check(signature([u], vs, es) == before, "failed writing changed graph")

    # bad arguments
    for bad, exc_t in (
        (lambda: nrpickler.dumps(vs, protocol=pickle.HIGHEST_PROTOCOL + 1), ValueError),
        (lambda: nrpickler.dumps(vs, nonsense=True), TypeError),
        (lambda: nrpickler.dump(vs, object()), TypeError),
        (lambda: nrpickler.dump(vs), TypeError),
    ):
        try:
            bad()
        except exc_t:
            pass
        else:
            check(False, f"expected {exc_t.__name__}")
    # negative protocol means "highest", None means "default"
    check(
        nrpickler.dumps(vs, protocol=-1)
        == nrpickler.dumps(vs, protocol=pickle.HIGHEST_PROTOCOL),
        "protocol=-1 is not the highest protocol",
    )
    check(
        nrpickler.dumps(vs, protocol=None)
        == nrpickler.dumps(vs, protocol=pickle.DEFAULT_PROTOCOL),
        "protocol=None is not the default protocol",
    )
    check(
        nrpickler.dumps(vs) == nrpickler.dumps(vs, pickle.DEFAULT_PROTOCOL),
        "dumps() default protocol",
    )


def deep():
    """
    Far more objects than the recursion limit allows frames, in a line (the
    worst case for a recursive pickler), for every protocol.
    """
    n = 2500
    u = Universe()
    vs = [Vertex(universes=[u], attributes={"i": i}) for i in range(n)]
    es = []
    for i in range(n - 1):
        es.append(
            explicit.link_directed(vs[i], vs[i + 1])
            if i % 3
            else explicit.link_undirected(vs[i], vs[i + 1])
        )
    nested = cur = []
    for _ in range(3000):
        cur.append([])
        cur = cur[0]
    vs[0].nested = nested
    chain = None
    for i in range(3000):
        chain = {"next": chain, "i": i}
    vs[-1].chain = chain

    old = sys.getrecursionlimit()
    blobs = {}
    sys.setrecursionlimit(220)
    try:
        for proto in PROTOCOLS:
            try:
                # start from the far end, from the middle and from the top
                blobs[proto] = (
                    nrpickler.dumps(vs[0], protocol=proto),
                    nrpickler.dumps(([u], vs, es), protocol=proto),
                    nrpickler.dumps(es[n // 2], protocol=proto)
                    if proto in (1, 5)
                    else None,
                )
                if proto in (0, 4):
                    bio = io.BytesIO()
                    nrpickler.dump(vs[-1], bio, protocol=proto)
                    check(bio.getvalue().endswith(pickle.STOP), "deep dump()")
            except RecursionError:
                check(False, f"RecursionError while pickling, protocol {proto}")
    finally:
        sys.setrecursionlimit(old)

    for proto in PROTOCOLS:
        b0, b1, b2 = blobs[proto]
        c0 = pickle.loads(b0)
        check(c0.uid == vs[0].uid, "deep: wrong root")
        members = c0.universes[0].vertices
        check(
            [x.uid for x in members] == [x.uid for x in vs],
            f"deep p{proto}: members differ",
        )
        cu, cvs, ces = (dill if proto % 2 else pickle).loads(b1)
        for caching in (True, False):
            Vertex.NEIGHBOR_CACHING = caching
            walk = breadthfirst.bft(cu[0], cvs[0])
            check(
                [x.uid for x in walk]
                == [x.uid for x in breadthfirst.bft(u, vs[0])],
                f"deep p{proto}: traversal differs",
            )
            walk = depthfirst.dft_iterative(cu[0], cvs[n // 2])
            check(
                [x.uid for x in walk]
                == [x.uid for x in depthfirst.dft_iterative(u, vs[n // 2])],
                f"deep p{proto}: dft differs",
            )
        Vertex.NEIGHBOR_CACHING = False
        if proto in (0, 4):
            isomorphic(([u], vs, es), (cu, cvs, ces))
        if b2 is not None:
            c2 = pickle.loads(b2)
            check(c2.uid == es[n // 2].uid, "deep: wrong edge root")
            check(
                len(c2.v1.universes[0].vertices) == n,
                "deep: edge root lost graph",
            )
        depth, cur = 0, cvs[0].nested
        while cur:
            cur = cur[0]
            depth += 1
        check(depth == 3000, f"deep p{proto}: nested list depth {depth}")
        depth, cur = 0, cvs[-1].chain
        while cur is not None:
            check(cur["i"] == 2999 - depth, "deep: chain order")
            cur = cur["next"]
            depth += 1
        check(depth == 3000, f"deep p{proto}: dict chain depth {depth}")


def cache_statistics():
    """
    Vertices that come out of a pickle never went through __init__; the
    neighbor cache and its statistics have to work for them all the same.
    """

    def totals():
        text = Vertex.total_cache_stats()
        rows = dict(
            line.split(":") for line in text.splitlines() if ":" in line
        )
        return {k.strip(): int(v) for k, v in rows.items()}

    Vertex.NEIGHBOR_CACHING = False
    check(
        Vertex.total_cache_stats() == "Neighbor caching is DISABLED",
        "statistics text while disabled",
    )
    u = Universe()
    vs = [Vertex(universes=[u], attributes={"i": i}) for i in range(5)]
    for i in range(4):
        explicit.link_directed(vs[i], vs[i + 1])
    explicit.link_undirected(vs[0], vs[4])

    for warm in (False, True):
        Vertex.NEIGHBOR_CACHING = True
        if warm:
            for v in vs:
                helpers.neighbors(v)
        for proto in PROTOCOLS:
            Vertex.NEIGHBOR_CACHING = True
            cu, cvs = pickle.loads(nrpickler.dumps((u, vs), protocol=proto))
            t0 = totals()
            for v, cv in zip(vs, cvs):
                first = helpers.neighbors(cv)
                second = helpers.neighbors(cv)
                check(first == second, "cached answer differs")
                check(first is not second, "cache hands out its own list")
                check(
                    [x.uid for x in first]
                    == [x.uid for x in helpers.neighbors(v)],
                    "copy's neighbors differ with caching",
                )
                check(
                    all(any(x is y for y in cvs) for x in first),
                    "cached neighbors are not the copy's own vertices",
                )
            t1 = totals()
            check(t1["Size"] >= t0["Size"], "statistics rows vanished")
            check(
                t1["Hits"] + t1["Misses"] - t0["Hits"] - t0["Misses"]
                == 3 * len(vs),
                "every cached lookup is either a hit or a miss",
            )
            check(
                t1["Hits"] - t0["Hits"] >= len(vs),
                "second lookups must be hits",
            )
            if warm:
                # the warm cache travels with the vertices
                check(
                    t1["Hits"] - t0["Hits"] == 3 * len(vs),
                    "a cache pickled warm must answer on the copy",
                )
            # a change on the copy invalidates the copy's cache only
            nv = Vertex(universes=[cu])
            explicit.link_directed(cvs[0], nv)
            check(
                helpers.neighbors(cvs[0])[-1] is nv,
                "stale cache on the copy after linking",
            )
            check(
                [x.uid for x in helpers.neighbors(vs[0])]
                == [vs[1].uid, vs[4].uid],
                "original disturbed by the copy",
            )
            # switching the cache off and on again
            Vertex.NEIGHBOR_CACHING = False
            explicit.unlink(cvs[0], nv)
            Vertex.NEIGHBOR_CACHING = True
            check(
                [x.uid for x in helpers.neighbors(cvs[0])]
                == [vs[1].uid, vs[4].uid],
                "stale cache after off/on",
            )
    Vertex.NEIGHBOR_CACHING = False


def randomised(seed, rounds):
    rnd = random.Random(seed)
    objects = 0
    for r in range(rounds):
        n = rnd.choice([1, 2, 3, 5, 8, 13, 25, 40])
        Vertex.NEIGHBOR_CACHING = rnd.random() < 0.5
        graph = build_random(rnd, n)
        Vertex.NEIGHBOR_CACHING = False
        protos = rnd.sample(PROTOCOLS, 2) if r % 4 else PROTOCOLS
        roundtrip(graph, protocols=protos, label=f"random#{r}")
        # odd roots: one vertex / one edge / a mapping / the same thing twice
        unis, verts, edges = graph
        proto = rnd.choice(PROTOCOLS)
        loads = rnd.choice([pickle.loads, dill.loads])
        root = rnd.choice(
            [
                verts[-1],
                edges[0] if edges else unis[0],
                {"a": verts, "b": (unis, verts), 7: edges[:2]},
                [graph, graph],
                unis[0].laws,
                (v for v in verts).__class__ and tuple(reversed(verts)),
            ]
        )
        objects += isomorphic(root, loads(nrpickler.dumps(root, protocol=proto)))
        if r % 10 == 0:
            fresh_interpreter(graph, f"random#{r}", protocols=(proto,))
    return objects


def main():
    scripted()
    failures()
    cache_statistics()
    objects = randomised(0xC10, 60)
    deep()
    check(Vertex.NEIGHBOR_CACHING is False, "left caching on")
    print(f"equiv.py: all {CHECKS[0]} checks passed ({objects} objects walked)")
    return 0


if __name__ == "__main__":
    sys.exit(main())
