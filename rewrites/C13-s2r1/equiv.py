#!/usr/bin/env python3
# -*- coding: utf-8 -*-
"""
Equivalence / property check for C13 ("read-only operations never change the
graph, even when a user callback raises"), centred on
edgegraph.traversal.helpers.neighbors / find_links and everything built on them
(breadth-first / depth-first traversals and searches, basic_render).

Only the public API is used.  The library is compared against an independent
model (plain Python data, written from the documentation and the property
statement) which predicts

 * the value returned (order, multiplicity, None entries) or the class of the
   exception raised,
 * the exact sequence of user-callback invocations (which callback, with which
   arguments),
 * the hit / miss / insertion counters published by
   Vertex.total_cache_stats() (i.e. when the neighbor memo is consulted and
   filled -- in particular *not* filled when a callback raised),

and, around every single call, vars() and the public views of every vertex,
link, universe and law object are snapshotted and must be unchanged.  After a
call that ended in an exception the same call is repeated with well-behaved
callbacks and must give the normal answer.

Exit status 0 means everything was as expected.
"""

import random
import re
import sys

from edgegraph.structure import (
    Vertex,
    Universe,
    TwoEndedLink,
    DirectedEdge,
    UnDirectedEdge,
)
from edgegraph.traversal import helpers, breadthfirst, depthfirst
from edgegraph.output import plaintext, nrpickler

FWD, ANY, BWD = (
    helpers.DIR_SENS_FORWARD,
    helpers.DIR_SENS_ANY,
    helpers.DIR_SENS_BACKWARD,
)
U_NON, U_NB, U_ERR = (
    helpers.LNK_UNKNOWN_NONNEIGHBOR,
    helpers.LNK_UNKNOWN_NEIGHBOR,
    helpers.LNK_UNKNOWN_ERROR,
)
assert (FWD, ANY, BWD) == (0, 1, 2) and (U_NON, U_NB, U_ERR) == (0, 1, 2)

FAILURES = []
CHECKS = [0]


def check(cond, msg):
    CHECKS[0] += 1
    if not cond:
        FAILURES.append(msg)
        if len(FAILURES) <= 40:
            print("FAIL:", msg)


class Boom(Exception):
    """raised by misbehaving callbacks"""


class BaseBoom(BaseException):
    """a non-Exception exception raised by misbehaving callbacks"""


# --------------------------------------------------------------------------
# classes used as "unusual but legal" inputs


class MyVertex(Vertex):
    pass


class UnknownLink(TwoEndedLink):
    """neither directed nor undirected"""


class SubDirected(DirectedEdge):
    pass


class SubUnDirected(UnDirectedEdge):
    pass


class BothWays(UnDirectedEdge, DirectedEdge):
    """inherits from both: the undirected test comes first"""


KINDS = {
    "U": UnDirectedEdge,
    "D": DirectedEdge,
    "X": UnknownLink,
    "SU": SubUnDirected,
    "SD": SubDirected,
    "UD": BothWays,
}


def kind_class(kind):
    """how the documentation classifies a link class: U, D or X"""
    if kind in ("U", "SU", "UD"):
        return "U"
    if kind in ("D", "SD"):
        return "D"
    return "X"


# --------------------------------------------------------------------------
# cache statistics, read through the public classmethod


def read_stats():
    """(hits, misses, invalidations, insertions), whatever the caching flag"""
    old = Vertex.NEIGHBOR_CACHING
    Vertex.NEIGHBOR_CACHING = True
    try:
        txt = Vertex.total_cache_stats()
    finally:
        Vertex.NEIGHBOR_CACHING = old
    vals = {}
    for line in txt.splitlines():
        m = re.match(r"^(\w+):\s+(-?\d+)$", line.strip())
        if m:
            vals[m.group(1)] = int(m.group(2))
    return (
        vals["Hits"],
        vals["Misses"],
        vals["Invalidations"],
        vals["Insertions"],
    )


# --------------------------------------------------------------------------
# snapshots


def freeze(x):
    if isinstance(x, (list, tuple)):
        return (type(x).__name__, tuple(freeze(i) for i in x))
    if isinstance(x, (set, frozenset)):
        return (type(x).__name__, tuple(sorted(id(i) for i in x)))
    if isinstance(x, dict):
        return ("dict", tuple((freeze(k), freeze(v)) for k, v in x.items()))
    if isinstance(x, (int, str, float, bool, bytes, type(None))):
        return (type(x).__name__, x)
    return ("obj", id(x))


def snapshot(objs, caching):
    """
    vars() of every object (names, order and values) plus the public views.

    While caching is enabled, private dict-valued attributes are taken to be
    memo tables and are not compared (filling the memo is not a change of the
    graph; whether it is filled at the right moments is checked through the
    published counters instead).  While caching is disabled *everything* is
    compared.
    """
    out = {}
    for o in objs:
        if o is None:
            continue
        items = []
        for k, v in vars(o).items():
            if caching and k.startswith("_") and isinstance(v, dict):
                continue
            items.append((k, freeze(v)))
        pub = [type(o), tuple(items)]
        pub.append(tuple(id(u) for u in o.universes))
        pub.append(o.uid)
        if isinstance(o, Vertex):
            pub.append(tuple(id(l) for l in o.links))
        if isinstance(o, Universe):
            pub.append(tuple(id(v) for v in o.vertices))
            pub.append(id(o.laws))
        if isinstance(o, TwoEndedLink) or hasattr(o, "vertices"):
            pub.append(tuple(id(v) for v in o.vertices))
        if hasattr(o, "applies_to"):
            pub.append(id(o.applies_to))
        out[id(o)] = tuple(pub)
    return out


# --------------------------------------------------------------------------
# callbacks: one specification, two instances (library side / model side)

EVENTS = {"lib": [], "mod": []}


class CB:
    """
    A deterministic callback.  ``lib`` is handed to the library, ``mod`` to the
    model; both log (name, ids of arguments) into a shared per-side event list
    and raise at their k-th invocation when armed with k.
    """

    def __init__(self, name, fn, hashable=True):
        self.name = name
        self.fn = fn
        self.fuse = {"lib": None, "mod": None}
        self.exc = Boom
        self.lib = self._make("lib")
        self.mod = self._make("mod")

    def _make(self, side):
        def call(*args):
            EVENTS[side].append((self.name,) + tuple(id(a) for a in args))
            if self.fuse[side] is not None:
                self.fuse[side] -= 1
                if self.fuse[side] == 0:
                    raise self.exc(f"{self.name} misbehaves")
            return self.fn(*args)

        return call

    def arm(self, k, exc=Boom):
        self.fuse = {"lib": k, "mod": k}
        self.exc = exc


# --------------------------------------------------------------------------
# the model


class MLink:
    def __init__(self, kind, a, b, obj):
        self.kind = kind  # key of KINDS
        self.a = a  # v1 (a Vertex object used as an identity token, or None)
        self.b = b  # v2
        self.obj = obj  # the library object (identity token for callbacks)


class Model:
    """
    Plain-data picture of the graph, kept in step by the test as it builds /
    mutates the real graph through the public API.
    """

    def __init__(self):
        self.inc = {}  # id(vertex) -> list of MLink, in attachment order
        self.memo = {}  # id(vertex) -> set of keys
        self.caching = False
        self.stats = [0, 0, 0]  # hits, misses, insertions

    def add_vertex(self, v):
        self.inc[id(v)] = []
        self.memo[id(v)] = set()

    def attach(self, v, ml):
        if ml not in self.inc[id(v)]:
            self.inc[id(v)].append(ml)

    def invalidate_all(self):
        for k in self.memo:
            self.memo[k] = set()

    # -- documented semantics of neighbors()

    @staticmethod
    def other(ml, v):
        if v is ml.a:
            return ml.b
        if v is ml.b:
            return ml.a
        return None

    @staticmethod
    def eq(x, const):
        # the options are compared by value
        return x == const

    def neighbors(self, v, ds=FWD, uh=U_ERR, cb=None):
        if v is None:
            raise AttributeError("None has no neighbors")
        key = (ds, uh, None if cb is None else id(cb))
        if self.caching:
            if key in self.memo[id(v)]:
                self.stats[0] += 1
                hit = True
            else:
                self.stats[1] += 1
                hit = False
        else:
            hit = False
        # (a hit returns what an uncached computation returned earlier; the
        # graph did not change in between, and no callback is invoked)
        out = []
        ff = None if cb is None else cb.mod
        for ml in self.inc[id(v)]:
            far = self.other(ml, v)
            if hit:
                take = self._structural(ml, v, ds, uh)
                if take and (ff is None or cb.fn(ml.obj, far)):
                    out.append(far)
                continue
            take = self._structural(ml, v, ds, uh)
            if take and (ff is None or ff(ml.obj, far)):
                out.append(far)
        if self.caching and not hit:
            self.stats[2] += 1
            self.memo[id(v)].add(key)
        return out

    def _structural(self, ml, v, ds, uh):
        if self.eq(ds, FWD):
            origin, target = ml.a, ml.b
        elif self.eq(ds, BWD):
            origin, target = ml.b, ml.a
        elif self.eq(ds, ANY):
            return True
        else:
            raise ValueError("direction")
        cls = kind_class(ml.kind)
        if cls == "U":
            return True
        if cls == "D":
            if origin is v:
                return True
            if target is v:
                return False
        if self.eq(uh, U_NON):
            return False
        if self.eq(uh, U_NB):
            return True
        raise NotImplementedError("unknown link class")

    # -- documented semantics of find_links()

    def find_links(self, v1, v2, ds=True, uh=U_ERR, cb=None):
        out = []
        ff = None if cb is None else cb.mod
        for ml in self.inc[id(v1)]:
            if self.other(ml, v1) is not v2:
                continue
            if ds:
                cls = kind_class(ml.kind)
                if cls == "U":
                    pass
                elif cls == "D":
                    if ml.a is not v1:
                        continue
                elif self.eq(uh, U_NON):
                    continue
                elif self.eq(uh, U_NB):
                    pass
                else:
                    raise NotImplementedError("unknown link class")
            if ff is None or ff(ml.obj):
                out.append(ml.obj)
        return out

    # -- traversals (textbook algorithms, as documented)

    @staticmethod
    def _member(members, v):
        return (members is None) or any(v is m for m in members)

    @staticmethod
    def _wanted(res, v):
        return True if res is None else bool(res.mod(v))

    def bft(self, members, start, ds, uh, via, res, out):
        if members is not None and len(members) == 0:
            return
        if not self._member(members, start):
            raise ValueError("start")
        seen = [start]
        queue = [start]
        if self._wanted(res, start):
            out.append(start)
        while queue:
            u = queue.pop(0)
            for v in self.neighbors(u, ds, uh, via):
                if not self._member(members, v):
                    continue
                if not any(v is s for s in seen):
                    seen.append(v)
                    queue.append(v)
                    if self._wanted(res, v):
                        out.append(v)

    def _preflight(self, members, start):
        if members is not None and len(members) == 0:
            raise ValueError("empty")
        if not self._member(members, start):
            raise ValueError("start")

    def dft_recursive(self, members, start, ds, uh, via, res, out):
        self._preflight(members, start)
        seen = []

        def rec(v):
            seen.append(v)
            if self._wanted(res, v):
                out.append(v)
            for w in self.neighbors(v, ds, uh, via):
                if not self._member(members, w):
                    continue
                if not any(w is s for s in seen):
                    rec(w)

        rec(start)

    def dft_iterative(self, members, start, ds, uh, via, res, out):
        self._preflight(members, start)
        stack = [start]
        seen = []
        while stack:
            v = stack.pop()
            if any(v is s for s in seen):
                continue
            if not self._member(members, v):
                continue
            seen.append(v)
            if self._wanted(res, v):
                out.append(v)
            stack.extend(self.neighbors(v, ds, uh, via))

    # -- searches

    @staticmethod
    def _match(tags, v, attrib, val):
        if v is None or attrib != "tag":
            return False
        return id(v) in tags and tags[id(v)] == val

    def bfs(self, members, start, attrib, val, tags):
        if members is not None and len(members) == 0:
            return None
        if not self._member(members, start):
            raise ValueError("start")
        if self._match(tags, start, attrib, val):
            return start
        seen = [start]
        queue = [start]
        while queue:
            u = queue.pop(0)
            for v in self.neighbors(u):
                if not self._member(members, v):
                    continue
                if self._match(tags, v, attrib, val):
                    return v
                if not any(v is s for s in seen):
                    seen.append(v)
                    queue.append(v)
        return None

    def dfs_recursive(self, members, start, attrib, val, tags):
        self._preflight(members, start)
        if self._match(tags, start, attrib, val):
            return start
        seen = []

        def rec(v):
            seen.append(v)
            for w in self.neighbors(v):
                if not self._member(members, w):
                    continue
                if not any(w is s for s in seen):
                    if self._match(tags, w, attrib, val):
                        return w
                    got = rec(w)
                    if got is not None:
                        return got
            return None

        return rec(start)

    def dfs_iterative(self, members, start, attrib, val, tags):
        self._preflight(members, start)
        stack = [start]
        seen = []
        while stack:
            v = stack.pop()
            if not self._member(members, v):
                continue
            if any(v is s for s in seen):
                continue
            if self._match(tags, v, attrib, val):
                return v
            seen.append(v)
            stack.extend(self.neighbors(v))
        return None

    # -- plain text rendering

    def basic_render(self, members, rfunc, sort):
        if len(members) == 0:
            return None
        if sort is not None:
            verts = sorted(members, key=sort.mod)
        else:
            verts = list(members)
        lines = []
        for vert in verts:
            head = rfunc.mod(vert) if rfunc is not None else repr(vert)
            head = f"{head} -> "
            nbs = self.neighbors(vert)
            if sort is not None:
                nbs = sorted(nbs, key=sort.mod)
            names = []
            for end in nbs:
                name = rfunc.mod(end) if rfunc is not None else repr(end)
                names.append(f"{name}")
            lines.append(head + ", ".join(names))
        return "\n".join(lines)


# --------------------------------------------------------------------------
# a world = real graph + model + bookkeeping


class World:
    def __init__(self, rng, caching):
        self.rng = rng
        self.caching = caching
        Vertex.NEIGHBOR_CACHING = caching
        self.model = Model()
        self.model.caching = caching
        self.verts = []
        self.links = []  # MLink
        self.unis = []
        self.tags = {}  # id(vertex) -> int (only the vertices that have .tag)
        self.num = {}  # id(obj) -> small int, for deterministic callbacks
        self.num[id(None)] = 0
        self.extra_objs = []

    # -- building through the public API

    def new_vertex(self, cls=Vertex, tag=None, universes=None):
        kwargs = {}
        if tag is not None:
            kwargs["attributes"] = {"tag": tag}
        if universes:
            kwargs["universes"] = universes
        if cls is Universe:
            kwargs.pop("universes", None)
            v = Universe(**kwargs)
            for u in universes or ():
                u.add_vertex(v)
        else:
            v = cls(**kwargs)
        self.verts.append(v)
        self.model.add_vertex(v)
        if tag is not None:
            self.tags[id(v)] = tag
        self.num[id(v)] = len(self.num) * 7 + 3
        return v

    def new_link(self, kind, a, b):
        obj = KINDS[kind](a, b)
        ml = MLink(kind, a, b, obj)
        self.links.append(ml)
        self.num[id(obj)] = len(self.num) * 5 + 1
        for end in (a, b):
            if end is not None:
                self.model.attach(end, ml)
        self.model.invalidate_all()
        self.force_invalidate()
        return ml

    def add_extra_member(self, ml, w):
        """make w a third member of the link (it is neither v1 nor v2)"""
        if w is ml.a or w is ml.b:
            return
        w.add_to_link(ml.obj)
        self.model.attach(w, ml)
        self.model.invalidate_all()
        self.force_invalidate()

    def force_invalidate(self):
        """
        Drop every memo (model and library) so both start level after a
        change of the graph.  Asking a vertex to leave a link it is not in is
        documented to do nothing but it does refresh the vertex' memo.
        """
        for v in self.verts:
            v.remove_from_link(None)

    def all_objects(self):
        objs = list(self.verts) + [ml.obj for ml in self.links] + self.unis
        for u in self.unis + [v for v in self.verts if isinstance(v, Universe)]:
            if u.laws is not None:
                objs.append(u.laws)
        return objs + self.extra_objs

    # -- deterministic callback functions

    def n(self, obj):
        return self.num.get(id(obj), 0)


TRUTHY = [True, 1, "y", (0,), 2.5]
FALSY = [False, 0, "", None, ()]


def make_callbacks(world, salt):
    n = world.n

    def via_fn(link, far):
        x = (n(link) * 3 + n(far) + salt) % 5
        return FALSY[(n(link) + salt) % 5] if x == 0 else TRUTHY[x]

    def res_fn(v):
        x = (n(v) + salt) % 4
        return FALSY[(n(v) + salt) % 5] if x == 0 else TRUTHY[x]

    def fl_fn(link):
        x = (n(link) + salt) % 3
        return FALSY[(n(link) + salt) % 5] if x == 0 else TRUTHY[x]

    def r_fn(v):
        return f"<{n(v)}>"

    def sort_fn(v):
        return (n(v) * 11 + salt) % 13

    return {
        "via": CB("via", via_fn),
        "via2": CB("via2", lambda l, f: True),
        "res": CB("res", res_fn),
        "fl": CB("fl", fl_fn),
        "rfunc": CB("rfunc", r_fn),
        "sort": CB("sort", sort_fn),
    }


# --------------------------------------------------------------------------
# running one operation on both sides


def ids(x):
    if isinstance(x, (list, tuple)):
        return [id(i) for i in x]
    if isinstance(x, (set, frozenset)):
        return sorted(id(i) for i in x)
    if isinstance(x, str) or x is None:
        return x
    return id(x)


def run_side(fn):
    try:
        return ("ok", fn())
    except RecursionError:
        raise
    except BaseException as exc:  # pylint: disable=broad-except
        if isinstance(exc, (KeyboardInterrupt, SystemExit, AssertionError)):
            raise
        return ("exc", type(exc))


def differential(world, label, lib_fn, mod_fn, cbs, arm=None, rearm=True):
    """
    lib_fn / mod_fn: zero-argument callables returning the (id-normalised)
    result.  ``arm``: dict callback-name -> (k, exception class).
    """
    objs = world.all_objects()
    for cb in cbs.values():
        cb.arm(None)
    if arm:
        for name, (k, exc) in arm.items():
            cbs[name].arm(k, exc)
    EVENTS["lib"].clear()
    EVENTS["mod"].clear()

    before = snapshot(objs, world.caching)
    s0 = read_stats()
    m0 = list(world.model.stats)
    got = run_side(lib_fn)
    s1 = read_stats()
    after = snapshot(objs, world.caching)
    want = run_side(mod_fn)
    m1 = list(world.model.stats)

    check(got == want, f"{label}: outcome {got!r} != expected {want!r}")
    check(
        EVENTS["lib"] == EVENTS["mod"],
        f"{label}: callback sequence differs "
        f"(lib {len(EVENTS['lib'])} calls, model {len(EVENTS['mod'])})",
    )
    check(before == after, f"{label}: graph changed by a read-only call")
    dlib = (s1[0] - s0[0], s1[1] - s0[1], s1[3] - s0[3])
    dmod = (m1[0] - m0[0], m1[1] - m0[1], m1[2] - m0[2])
    check(s1[2] == s0[2], f"{label}: a read-only call invalidated a memo")
    if world.caching:
        check(
            dlib == dmod,
            f"{label}: memo traffic (hits, misses, insertions) {dlib} "
            f"!= expected {dmod}",
        )
    else:
        check(dlib == (0, 0, 0), f"{label}: memo traffic while disabled")

    if got[0] == "exc" and arm and rearm:
        # the same call again, with well-behaved callbacks
        differential(world, label + " [again]", lib_fn, mod_fn, cbs)
    return got


# --------------------------------------------------------------------------
# operations


def op_neighbors(world, cbs, v, ds, uh, cbname):
    cb = cbs[cbname] if cbname else None
    ff = cb.lib if cb else None
    return (
        lambda: ids(helpers.neighbors(v, ds, uh, ff)),
        lambda: ids(world.model.neighbors(v, ds, uh, cb)),
    )


def op_find_links(world, cbs, a, b, ds, uh, cbname):
    cb = cbs[cbname] if cbname else None
    ff = cb.lib if cb else None

    def lib():
        res = helpers.find_links(a, b, ds, uh, ff)
        assert isinstance(res, set)
        return ids(res)

    def mod():
        res = world.model.find_links(a, b, ds, uh, cb)
        return sorted(set(id(x) for x in res))

    return lib, mod


TRAVERSALS = {
    "bft": (breadthfirst.bft, breadthfirst.ibft, "bft"),
    "dft_recursive": (
        depthfirst.dft_recursive,
        depthfirst.idft_recursive,
        "dft_recursive",
    ),
    "dft_iterative": (
        depthfirst.dft_iterative,
        depthfirst.idft_iterative,
        "dft_iterative",
    ),
}


def op_traverse(world, cbs, name, uni, start, ds, uh, vianame, resname, gen):
    listfn, genfn, modname = TRAVERSALS[name]
    via = cbs[vianame] if vianame else None
    res = cbs[resname] if resname else None
    kwargs = {
        "direction_sensitive": ds,
        "unknown_handling": uh,
        "ff_via": via.lib if via else None,
        "ff_result": res.lib if res else None,
    }
    members = None if uni is None else uni.vertices

    if not gen:

        def lib():
            out = listfn(uni, start, **kwargs)
            assert isinstance(out, list)
            return ("full", ids(out))

        def mod():
            out = []
            getattr(world.model, modname)(
                members, start, ds, uh, via, res, out
            )
            return ("full", ids(out))

        return lib, mod

    # generator flavour: what was yielded before any exception counts, too
    def lib():
        out = []
        it = genfn(uni, start, **kwargs)
        try:
            for x in it:
                out.append(x)
        except Exception as exc:  # pylint: disable=broad-except
            if type(exc) is RuntimeError and isinstance(
                exc.__cause__, StopIteration
            ):
                # a StopIteration leaving a generator is turned into a
                # RuntimeError by Python itself
                return ("partial", ids(out), RuntimeError, StopIteration)
            return ("partial", ids(out), type(exc))
        return ("full", ids(out))

    def mod():
        out = []
        try:
            getattr(world.model, modname)(
                members, start, ds, uh, via, res, out
            )
        except StopIteration:
            return ("partial", ids(out), RuntimeError, StopIteration)
        except Exception as exc:  # pylint: disable=broad-except
            return ("partial", ids(out), type(exc))
        return ("full", ids(out))

    return lib, mod


SEARCHES = {
    "bfs": breadthfirst.bfs,
    "dfs_recursive": depthfirst.dfs_recursive,
    "dfs_iterative": depthfirst.dfs_iterative,
}


def op_search(world, name, uni, start, attrib, val):
    members = None if uni is None else uni.vertices
    return (
        lambda: ids(SEARCHES[name](uni, start, attrib, val)),
        lambda: ids(
            getattr(world.model, name)(members, start, attrib, val, world.tags)
        ),
    )


def op_render(world, cbs, uni, rname, sname):
    rf = cbs[rname] if rname else None
    sf = cbs[sname] if sname else None
    return (
        lambda: plaintext.basic_render(
            uni, rf.lib if rf else None, sf.lib if sf else None
        ),
        lambda: world.model.basic_render(uni.vertices, rf, sf),
    )


# --------------------------------------------------------------------------
# scripted corner cases


def scripted(caching):
    rng = random.Random(1)
    w = World(rng, caching)
    uni = Universe()
    w.unis.append(uni)
    v = [w.new_vertex(tag=i, universes=[uni]) for i in range(5)]
    loner = w.new_vertex(MyVertex, universes=[uni])
    outsider = w.new_vertex(tag=99)
    inner_uni = w.new_vertex(Universe, tag=7, universes=[uni])
    cbs = make_callbacks(w, 2)

    # the graph of the documentation, plus decorations
    w.new_link("D", v[1], v[2])
    w.new_link("D", v[1], v[3])
    w.new_link("D", v[2], v[3])
    w.new_link("D", v[3], v[4])
    w.new_link("D", v[4], v[1])
    w.new_link("D", v[1], v[4])
    w.new_link("D", v[0], v[0])  # directed self loop
    w.new_link("U", v[0], v[0])  # undirected self loop
    w.new_link("U", v[0], v[1])
    w.new_link("U", v[0], v[1])  # parallel
    w.new_link("SD", v[2], v[0])
    w.new_link("SU", v[2], v[4])
    w.new_link("UD", v[4], v[3])  # both: counts as undirected
    w.new_link("D", v[3], outsider)
    w.new_link("U", inner_uni, v[1])
    w.new_link("D", inner_uni, inner_uni)
    w.new_link("D", None, v[4])  # a dangling origin
    w.new_link("U", v[4], None)  # a dangling end

    dss = [FWD, ANY, BWD, True, False, 0.0, 2.0, 1.0, 3, -1, "x", None]
    uhs = [U_NON, U_NB, U_ERR, True, False, 7, None]

    def sweep(tag):
        for vert in w.verts:
            for ds in dss:
                for uh in uhs[:3] if ds in (3, -1, "x", None) else uhs:
                    for cbname in (None, "via"):
                        lib, mod = op_neighbors(w, cbs, vert, ds, uh, cbname)
                        differential(
                            w,
                            f"{tag} neighbors(v{w.verts.index(vert)}, {ds!r},"
                            f" {uh!r}, {cbname})",
                            lib,
                            mod,
                            cbs,
                        )
        for a in w.verts + [None]:
            for b in w.verts + [None]:
                if a is None:
                    continue
                for ds in (True, False, 1, 0, "yes", "", [], [0], None):
                    for uh in (U_NON, U_NB, U_ERR, 7):
                        for cbname in (None, "fl"):
                            lib, mod = op_find_links(
                                w, cbs, a, b, ds, uh, cbname
                            )
                            differential(
                                w,
                                f"{tag} find_links({ds!r}, {uh!r}, {cbname})",
                                lib,
                                mod,
                                cbs,
                            )

    sweep("plain")

    # now unknown link classes and three-member links come in
    x1 = w.new_link("X", v[1], v[2])
    w.new_link("X", v[3], v[3])
    w.new_link("X", v[2], v[1])
    d3 = w.new_link("D", v[0], v[4])
    u3 = w.new_link("U", v[0], v[3])
    w.add_extra_member(d3, loner)  # loner is neither end of a directed edge
    w.add_extra_member(u3, loner)  # ... and of an undirected one
    w.add_extra_member(x1, v[4])
    sweep("unknown")

    # every callback position, every kind of exception
    for exc in (Boom, StopIteration, BaseBoom, ValueError, NotImplementedError):
        for vert in w.verts:
            for ds in (FWD, ANY, BWD):
                for uh in (U_NON, U_NB, U_ERR):
                    for k in range(1, 8):
                        lib, mod = op_neighbors(w, cbs, vert, ds, uh, "via")
                        differential(
                            w,
                            f"neighbors raising {exc.__name__}@{k}",
                            lib,
                            mod,
                            cbs,
                            arm={"via": (k, exc)},
                        )
        for a in v[:3]:
            for b in v[:4]:
                for k in (1, 2, 3):
                    for ds in (True, False):
                        lib, mod = op_find_links(
                            w, cbs, a, b, ds, U_NB, "fl"
                        )
                        differential(
                            w,
                            f"find_links raising {exc.__name__}@{k}",
                            lib,
                            mod,
                            cbs,
                            arm={"fl": (k, exc)},
                        )

    # returned lists belong to the caller
    for vert in w.verts:
        for ds in (FWD, ANY, BWD):
            first = helpers.neighbors(vert, ds, U_NB)
            keep = list(first)
            first.append("junk")
            first.reverse()
            second = helpers.neighbors(vert, ds, U_NB)
            third = helpers.neighbors(vert, ds, U_NB)
            check(second is not first and third is not second, "list identity")
            check(
                ids(second) == ids(keep) == ids(third),
                "a caller's modification of the result leaked",
            )
            want = w.model.neighbors(vert, ds, U_NB)
            w.model.neighbors(vert, ds, U_NB)
            w.model.neighbors(vert, ds, U_NB)
            check(ids(want) == ids(keep), "neighbors vs model (identity part)")

    # unhashable filter functions
    class Unhashable:
        __hash__ = None

        def __init__(self):
            self.calls = 0

        def __call__(self, link, far):
            self.calls += 1
            return True

    uf = Unhashable()
    objs = w.all_objects()
    before = snapshot(objs, caching)
    if caching:
        try:
            helpers.neighbors(v[1], FWD, U_NB, uf)
            check(False, "unhashable filterfunc accepted while caching")
        except TypeError:
            pass
        check(uf.calls == 0, "unhashable filterfunc was called")
    else:
        got = helpers.neighbors(v[1], FWD, U_NB, uf)
        check(
            ids(got) == ids(w.model.neighbors(v[1], FWD, U_NB)),
            "unhashable filterfunc, no caching",
        )
    check(snapshot(objs, caching) == before, "unhashable filterfunc: changed")
    # (the failed lookup may or may not have been counted; level the model)
    w.force_invalidate()
    w.model.invalidate_all()

    # traversals / searches / rendering on the scripted graph, with every
    # callback position raising
    for name in TRAVERSALS:
        for start in w.verts:
            for un in (uni, None):
                for ds in (FWD, ANY, BWD):
                    for gen in (False, True):
                        for via, res in (
                            (None, None),
                            ("via", "res"),
                            ("via2", None),
                        ):
                            lib, mod = op_traverse(
                                w, cbs, name, un, start, ds, U_NB, via, res, gen
                            )
                            differential(
                                w, f"{name} scripted", lib, mod, cbs
                            )
                for k in range(1, 10):
                    for which in ("via", "res"):
                        for exc in (Boom, StopIteration):
                            for gen in (False, True):
                                lib, mod = op_traverse(
                                    w,
                                    cbs,
                                    name,
                                    un,
                                    start,
                                    ANY,
                                    U_NB,
                                    "via",
                                    "res",
                                    gen,
                                )
                                if exc is StopIteration and not gen:
                                    # list(generator) and a StopIteration
                                    # escaping inside: Python reports a
                                    # RuntimeError; keep to the generator
                                    # flavour which inspects the cause
                                    continue
                                differential(
                                    w,
                                    f"{name} {which} raising@{k}",
                                    lib,
                                    mod,
                                    cbs,
                                    arm={which: (k, exc)},
                                )
    for name in SEARCHES:
        for start in w.verts:
            for un in (uni, None):
                for attrib, val in (
                    ("tag", 3),
                    ("tag", 99),
                    ("tag", 7),
                    ("tag", -5),
                    ("nope", 1),
                    ("tag", w.tags.get(id(start), 0)),
                ):
                    lib, mod = op_search(w, name, un, start, attrib, val)
                    differential(w, f"{name} scripted", lib, mod, cbs)

    for rname in (None, "rfunc"):
        for sname in (None, "sort"):
            lib, mod = op_render(w, cbs, uni, rname, sname)
            got = differential(w, "basic_render scripted", lib, mod, cbs)
            for k in range(1, 40):
                for which in (rname, sname):
                    if which is None:
                        continue
                    lib, mod = op_render(w, cbs, uni, rname, sname)
                    differential(
                        w,
                        f"basic_render {which} raising@{k}",
                        lib,
                        mod,
                        cbs,
                        arm={which: (k, Boom)},
                    )

    # empty universe, empty inputs
    empty = Universe()
    w.unis.append(empty)
    check(plaintext.basic_render(empty) is None, "render of empty universe")
    check(breadthfirst.bft(empty, v[0]) == [], "bft in an empty universe")
    check(breadthfirst.bfs(empty, v[0], "tag", 0) is None, "bfs, empty")
    for fn in (
        lambda: depthfirst.dft_recursive(empty, v[0]),
        lambda: depthfirst.dft_iterative(empty, v[0]),
        lambda: depthfirst.dfs_recursive(empty, v[0], "tag", 0),
        lambda: depthfirst.dfs_iterative(empty, v[0], "tag", 0),
        lambda: breadthfirst.bft(uni, outsider),
        lambda: depthfirst.dft_recursive(uni, outsider),
    ):
        try:
            fn()
            check(False, "ValueError expected")
        except ValueError:
            pass

    # a generator that is abandoned half way leaves nothing behind
    objs = w.all_objects()
    before = snapshot(objs, caching)
    for genfn in (
        breadthfirst.ibft,
        depthfirst.idft_recursive,
        depthfirst.idft_iterative,
    ):
        it = genfn(uni, v[1], direction_sensitive=ANY, unknown_handling=U_NB)
        next(it)
        next(it)
        it.close()
    check(snapshot(objs, caching) == before, "abandoned generator: changed")
    w.force_invalidate()
    w.model.invalidate_all()

    # pickling is read-only, too, and what comes back has the same shape
    before = snapshot(objs, caching)
    s0 = read_stats()
    blob = nrpickler.dumps(uni)
    check(snapshot(objs, caching) == before, "nrpickler.dumps changed things")
    check(read_stats() == s0, "nrpickler.dumps touched the memo counters")
    import dill  # the documented way to load what nrpickler wrote

    clone = dill.loads(blob)
    check(
        [len(x.links) for x in clone.vertices]
        == [len(x.links) for x in uni.vertices],
        "pickle round trip: link counts",
    )
    for ds in (FWD, ANY, BWD):
        a = [
            [None if n is None else uni.vertices.index(n) if n in uni.vertices else -1 for n in helpers.neighbors(x, ds, U_NB)]
            for x in uni.vertices
        ]
        b = [
            [None if n is None else clone.vertices.index(n) if n in clone.vertices else -1 for n in helpers.neighbors(x, ds, U_NB)]
            for x in clone.vertices
        ]
        check(a == b, "pickle round trip: neighbor structure")
    w.force_invalidate()
    w.model.invalidate_all()


# --------------------------------------------------------------------------
# seeded random differential part


def random_world(rng, caching):
    w = World(rng, caching)
    nuni = rng.choice([1, 1, 2])
    unis = [Universe() for _ in range(nuni)]
    w.unis.extend(unis)
    nv = rng.choice([0, 1, 2, 3, 4, 5, 6, 8])
    for i in range(nv):
        cls = rng.choice([Vertex, Vertex, Vertex, MyVertex, Universe])
        member_of = [u for u in unis if rng.random() < 0.8]
        tag = rng.randrange(4) if rng.random() < 0.6 else None
        w.new_vertex(cls, tag=tag, universes=member_of)
    if nv:
        nl = rng.randrange(0, 2 * nv + 3)
        for _ in range(nl):
            kind = rng.choice(
                ["U", "D", "D", "D", "U", "SU", "SD", "UD", "X"]
                if rng.random() < 0.5
                else ["U", "D", "D"]
            )
            a = rng.choice(w.verts)
            b = rng.choice(w.verts)
            if rng.random() < 0.03:
                a = None
            elif rng.random() < 0.03:
                b = None
            ml = w.new_link(kind, a, b)
            if rng.random() < 0.05:
                w.add_extra_member(ml, rng.choice(w.verts))
    return w


def random_ops(w, rng, cbs, nops):
    ds_pool = [FWD, FWD, ANY, BWD, FWD, ANY, BWD, 3]
    uh_pool = [U_NON, U_NB, U_ERR, U_NB, U_NON]
    for _ in range(nops):
        what = rng.random()
        arm = None
        uni = rng.choice(w.unis + [None])
        if not w.verts:
            # nothing but the empty universe to look at
            for name in TRAVERSALS:
                lib, mod = op_traverse(
                    w, cbs, name, w.unis[0], None, FWD, U_ERR, None, None, False
                )
                differential(w, f"random {name} (empty)", lib, mod, cbs)
            lib, mod = op_render(w, cbs, w.unis[0], "rfunc", "sort")
            differential(w, "random render (empty)", lib, mod, cbs)
            return
        v = rng.choice(w.verts)
        ds = rng.choice(ds_pool)
        uh = rng.choice(uh_pool)
        if what < 0.30:
            cbname = rng.choice([None, "via", "via", "via2"])
            if cbname and rng.random() < 0.35:
                arm = {cbname: (rng.randrange(1, 5), Boom)}
            lib, mod = op_neighbors(w, cbs, v, ds, uh, cbname)
            label = "random neighbors"
        elif what < 0.45:
            cbname = rng.choice([None, "fl"])
            if cbname and rng.random() < 0.35:
                arm = {cbname: (rng.randrange(1, 3), Boom)}
            other = rng.choice(w.verts + [None])
            lib, mod = op_find_links(
                w, cbs, v, other, rng.choice([True, False]), uh, cbname
            )
            label = "random find_links"
        elif what < 0.75:
            name = rng.choice(list(TRAVERSALS))
            via = rng.choice([None, "via", "via2"])
            res = rng.choice([None, "res"])
            cands = [c for c in (via, res) if c]
            if cands and rng.random() < 0.4:
                arm = {rng.choice(cands): (rng.randrange(1, 8), Boom)}
            if ds == 3:
                ds = FWD
            lib, mod = op_traverse(
                w, cbs, name, uni, v, ds, uh, via, res, rng.random() < 0.5
            )
            label = f"random {name}"
        elif what < 0.90:
            name = rng.choice(list(SEARCHES))
            attrib = rng.choice(["tag", "tag", "tag", "missing"])
            lib, mod = op_search(w, name, uni, v, attrib, rng.randrange(5))
            label = f"random {name}"
        else:
            uni = rng.choice(w.unis)
            if any(not isinstance(m, Vertex) for m in uni.vertices):
                continue
            rname = rng.choice([None, "rfunc"])
            sname = rng.choice([None, "sort"])
            cands = [c for c in (rname, sname) if c]
            if cands and rng.random() < 0.4:
                arm = {rng.choice(cands): (rng.randrange(1, 12), Boom)}
            lib, mod = op_render(w, cbs, uni, rname, sname)
            label = "random basic_render"
        differential(w, label, lib, mod, cbs, arm=arm)

        # now and then the graph is changed (through the public API), after
        # which the read-only calls have to see the new graph
        if rng.random() < 0.08 and w.verts:
            w.new_link(
                rng.choice(["U", "D", "X"]),
                rng.choice(w.verts),
                rng.choice(w.verts),
            )


def randomized(seed, worlds, nops):
    rng = random.Random(seed)
    for i in range(worlds):
        caching = bool(i % 2)
        w = random_world(rng, caching)
        cbs = make_callbacks(w, rng.randrange(100))
        random_ops(w, rng, cbs, nops)


def main():
    old = Vertex.NEIGHBOR_CACHING
    try:
        for caching in (False, True):
            scripted(caching)
        randomized(20240913, 400, 30)
    finally:
        Vertex.NEIGHBOR_CACHING = old
    print(f"{CHECKS[0]} checks, {len(FAILURES)} failures")
    return 1 if FAILURES else 0


if __name__ == "__main__":
    sys.exit(main())
